#!/usr/bin/env python3
"""Translator: paseto-v3-aws-lc/src/lc/{mod,ptr}.rs  ->  lean/PasetoModel/Extracted/Ffi.lean.

For every function of lc/mod.rs that touches aws-lc it emits the function's *ownership-relevant action list*
(`PM.Ffi.Fn`): wrapper constructions, FFI calls with the tracked objects they use, C-side ownership transfers,
detaches, forgets, explicit drops and raw frees, in evaluation order, with in-file helper calls inlined.  The Lean
checker `PM.Ffi.Fn.ok` then decides, for *every* prefix of the list (every FFI call is treated as a possible early
exit — `?`, `return Err`, or a panic that unwinds — so the translation does not depend on how errors are
propagated), that nothing is freed twice, used after free, or leaked.  From lc/ptr.rs it reads the three facts the
checker's semantics assumes (ManagedPointer drop frees; DetachablePointer drop frees iff still present; detach takes
the pointer) and the type -> free-function table.

Trusted: this translator, and the classification of aws-lc functions below (which return a new object, which write a
new object through an out-parameter, which take ownership of arguments, which only borrow)."""
import os, re, sys
sys.path.insert(0, os.path.dirname(os.path.abspath(__file__)))
from rustlex import lex, tree, Tok, Group, is_tok, flat_text, idents, find_fns, drop_test_modules

# ---- trusted classification of the aws-lc API used by the crate (aws-lc documentation / headers) -----------------
ALLOCATORS = {"BN_bin2bn", "BN_new", "EC_POINT_new", "EC_POINT_dup", "EC_KEY_new", "EC_KEY_dup", "EC_KEY_new_by_curve_name",
              "ECDSA_SIG_new", "ECDSA_SIG_from_bytes", "ECDSA_do_sign", "BN_dup", "EC_KEY_parse_private_key",
              "OPENSSL_malloc", "EC_GROUP_new_by_curve_name"}
OUT_ALLOC = {"ECDSA_SIG_to_bytes": [0]}                   # allocates *arg0 (to be released with OPENSSL_free)
TRANSFERS = {"ECDSA_SIG_set0": (0, [1, 2])}               # on success arg0 owns arg1, arg2
OUT_BORROW = {"ECDSA_SIG_get0": (0, [1, 2])}              # *arg1, *arg2 become views into arg0
FREE_FNS = {"BN_free", "BN_clear_free", "EC_GROUP_free", "EC_POINT_free", "EC_KEY_free", "ECDSA_SIG_free", "OPENSSL_free"}
BORROWING = {"BN_bn2bin", "BN_bn2bin_padded", "BN_num_bytes", "EC_KEY_get0_private_key", "EC_KEY_get0_public_key",
             "EC_KEY_set_group", "EC_KEY_set_private_key", "EC_KEY_set_public_key", "EC_POINT_is_at_infinity",
             "EC_POINT_mul", "EC_POINT_oct2point", "EC_POINT_point2oct", "EC_group_p384", "ECDH_compute_key",
             "ECDSA_SIG_get0", "ECDSA_sign", "ECDSA_size", "ECDSA_verify", "EC_KEY_check_key", "EC_KEY_get0_group",
             "EC_POINT_cmp", "EC_POINT_is_on_curve", "BN_cmp", "BN_is_zero", "EC_GROUP_get0_order", "ERR_clear_error",
             "ERR_get_error", "ERR_peek_error", "CRYPTO_memcmp"}
# argument positions an aws-lc function writes through (everything else is read-only / const)
MUTATES = {"BN_bn2bin": [1], "BN_bn2bin_padded": [0], "EC_KEY_set_group": [0], "EC_KEY_set_private_key": [0],
           "EC_KEY_set_public_key": [0], "EC_POINT_mul": [1], "EC_POINT_oct2point": [1], "EC_POINT_point2oct": [3],
           "ECDH_compute_key": [0], "ECDSA_SIG_get0": [1, 2], "ECDSA_sign": [3, 4], "ECDSA_SIG_to_bytes": [0, 1],
           "ECDSA_SIG_set0": [0, 1, 2], "BN_bin2bn": [2]}
# aws-lc entry points whose result depends on, or which change, per-thread or process-wide library state (error queue,
# RNG seeding, global configuration): a wrapper whose behaviour consults them is not a function of its arguments
THREAD_STATE_PREFIXES = ("ERR_", "RAND_seed", "RAND_add", "RAND_load", "CRYPTO_set", "CRYPTO_THREADID", "ENGINE_", "OPENSSL_init",
                         "FIPS_mode_set", "CRYPTO_library_init", "OPENSSL_config", "EVP_set_")
TYPE_NAMES = {"EC_GROUP", "EC_KEY", "EC_POINT", "ECDSA_SIG", "BIGNUM", "point_conversion_form_t"}
WRAP_NEW = {"LcPtr": False, "ManagedPointer": False, "DetachableLcPtr": True, "DetachablePointer": True}
FORGETTERS = {"forget", "ManuallyDrop", "leak", "into_raw"}
EXPECTED_FREE = {"u8": "OPENSSL_free", "EC_GROUP": "EC_GROUP_free", "EC_POINT": "EC_POINT_free", "EC_KEY": "EC_KEY_free",
                 "ECDSA_SIG": "ECDSA_SIG_free", "BIGNUM": "BN_free"}


class Env:
    def __init__(self, fns_by_name, ffi_names):
        self.fns_by_name, self.ffi_names = fns_by_name, ffi_names
        self.acts = []            # list of lean action strings
        self.vars = {}            # name -> (resource id, state)   state: 'borrowed' | 'owned' | 'raw' | 'alias'
        self.next = 0
        self.borrowed = []
        self.unknown = set()
        self.notes = []
        self.shared = set()       # resources borrowed through `&` (not `&mut`)
        self.shared_mut = []      # aws-lc calls that write through a shared borrow
        self.thread_state = []    # aws-lc calls that read or write per-thread / global library state

    def fresh(self):
        r = self.next
        self.next += 1
        return r


def tracked_uses(env, items, scope):
    """resources of the tracked variables mentioned anywhere in `items` (dedup, order of first occurrence)"""
    seen = []
    for name in idents(items):
        if name in scope and scope[name][0] is not None and scope[name][0] not in seen:
            seen.append(scope[name][0])
    return seen


def split_args(group):
    args, cur = [], []
    for x in group.items:
        if is_tok(x, ","):
            args.append(cur); cur = []
        else:
            cur.append(x)
    if cur:
        args.append(cur)
    return args


def eval_items(env, items, scope, depth=0, inline_stack=()):
    """walk `items` in evaluation order, appending actions; returns a 'value': ('owned', r, detachable) for a fresh
    wrapper / owned struct, ('raw', r) for a freshly allocated raw pointer, or None"""
    value = None
    i = 0
    n = len(items)
    while i < n:
        x = items[i]
        # closure: |a, b| body   -> params alias the receiver's resource (handled by caller through scope); just walk body
        if isinstance(x, Group):
            v = eval_items(env, x.items, scope, depth + 1, inline_stack)
            if v is not None:
                value = v
            i += 1
            continue
        if x.kind == "ident" and i + 1 < n and isinstance(items[i + 1], Group) and items[i + 1].open == "(":
            name = x.text
            argg = items[i + 1]
            prev = items[i - 1] if i > 0 else None
            prev2 = items[i - 2] if i > 1 else None
            is_method = is_tok(prev, ".")
            path_owner = prev2.text if (is_tok(prev, "::") and isinstance(prev2, Tok) and prev2.kind == "ident") else None
            # --- wrapper constructors -------------------------------------------------------------------------
            if name == "new" and path_owner in WRAP_NEW:
                det = WRAP_NEW[path_owner]
                inner = eval_items(env, argg.items, scope, depth + 1, inline_stack)
                if inner is not None and inner[0] == "raw":
                    r = inner[1]
                    # allocator call directly inside the constructor: one fallible allocation step
                    if env.acts and env.acts[-1] == ".allocRaw %d" % r:
                        env.acts[-1] = ".alloc %d %s" % (r, "true" if det else "false")
                    else:
                        env.acts.append(".adopt %d %s" % (r, "true" if det else "false"))
                    value = ("owned", r, det)
                else:
                    # a raw pointer variable (set through an out-parameter, or an earlier raw allocation)
                    rs = [scope[nm][0] for nm in idents(argg.items) if nm in scope and scope[nm][1] == "raw"]
                    if rs:
                        r = rs[0]
                        env.acts.append(".adopt %d %s" % (r, "true" if det else "false"))
                        value = ("owned", r, det)
                    else:
                        r = env.fresh()
                        env.notes.append("wrapper constructed from an untracked pointer: %s" % flat_text(argg.items)[:80])
                        env.acts.append(".alloc %d %s" % (r, "true" if det else "false"))
                        value = ("owned", r, det)
                i += 2
                continue
            # --- aws-lc calls ---------------------------------------------------------------------------------
            if name in env.ffi_names and not is_method:
                args = split_args(argg)
                for a in args:
                    eval_items(env, a, scope, depth + 1, inline_stack)
                uses = tracked_uses(env, argg.items, scope)
                if name.startswith(THREAD_STATE_PREFIXES) and name != "ERR_clear_error":     # clearing the queue only resets state
                    env.thread_state.append(name)
                for mi in (MUTATES.get(name, []) if name not in FREE_FNS else range(len(args))):
                    if mi < len(args):
                        hit = [r for r in tracked_uses(env, args[mi], scope) if r in env.shared]
                        if hit:
                            env.shared_mut.append(name)
                if name in FREE_FNS:
                    for r in uses:
                        env.acts.append(".rawFree %d" % r)
                elif name in TRANSFERS:
                    into_i, given_i = TRANSFERS[name]
                    into = tracked_uses(env, args[into_i], scope) if into_i < len(args) else []
                    given = []
                    for gi in given_i:
                        if gi < len(args):
                            given += tracked_uses(env, args[gi], scope)
                    env.acts.append(".call [%s] true" % ", ".join(map(str, uses)))
                    if into and given:
                        env.acts.append(".give [%s] %d" % (", ".join(map(str, given)), into[0]))
                    else:
                        env.notes.append("%s: could not resolve transfer operands" % name)
                        env.unknown.add(name + " (operands)")
                elif name in OUT_ALLOC:
                    env.acts.append(".call [%s] true" % ", ".join(map(str, uses)))
                    for oi in OUT_ALLOC[name]:
                        if oi < len(args):
                            names = [nm for nm in idents(args[oi]) if nm not in ("raw", "mut", "const")]
                            if names:
                                r = env.fresh()
                                scope[names[-1]] = (r, "raw")
                                env.acts.append(".allocRaw %d" % r)
                elif name in ALLOCATORS:
                    env.acts.append(".call [%s] true" % ", ".join(map(str, uses))) if uses else None
                    r = env.fresh()
                    env.acts.append(".allocRaw %d" % r)
                    value = ("raw", r)
                else:
                    if name not in BORROWING:
                        env.unknown.add(name)
                    env.acts.append(".call [%s] true" % ", ".join(map(str, uses)))
                    if name in OUT_BORROW:
                        src_i, outs = OUT_BORROW[name]
                        src = tracked_uses(env, args[src_i], scope) if src_i < len(args) else []
                        for oi in outs:
                            if oi < len(args) and src:
                                names = [nm for nm in idents(args[oi]) if nm not in ("raw", "mut", "const")]
                                if names:
                                    scope[names[-1]] = (src[0], "alias")
                i += 2
                continue
            # --- detach / forget / drop ------------------------------------------------------------------------
            if is_method and name == "detach":
                recv = items[i - 2] if i >= 2 else None
                if is_tok(recv, kind="ident") and recv.text in scope and scope[recv.text][0] is not None:
                    env.acts.append(".detach %d" % scope[recv.text][0])
                i += 2
                continue
            if name in FORGETTERS or (name == "new" and path_owner == "ManuallyDrop"):
                for r in tracked_uses(env, argg.items, scope):
                    env.acts.append(".detach %d" % r)          # the wrapper will never free it
                if is_method and name in ("leak", "into_raw"):
                    recv = items[i - 2] if i >= 2 else None
                    if is_tok(recv, kind="ident") and recv.text in scope and scope[recv.text][0] is not None:
                        env.acts.append(".detach %d" % scope[recv.text][0])
                i += 2
                continue
            if name == "drop" and not is_method and path_owner in (None, "mem"):
                for nm in idents(argg.items):
                    if nm in scope and scope[nm][1] == "owned":
                        env.acts.append(".dropNow %d" % scope[nm][0])
                i += 2
                continue
            # --- in-file helper: inline -------------------------------------------------------------------------
            callee = None
            if not is_method and name in env.fns_by_name and name not in inline_stack:
                cands = env.fns_by_name[name]
                if path_owner and path_owner != "Self":
                    c2 = [c for c in cands if c.self_type == path_owner]
                    cands = c2 or cands
                callee = cands[0]
            if callee is not None and len(inline_stack) < 4:
                args = split_args(argg)
                for a in args:
                    eval_items(env, a, scope, depth + 1, inline_stack)
                pnames = param_names(callee)
                sub = {}
                for k, pn in enumerate(pnames):
                    if k < len(args):
                        u = tracked_uses(env, args[k], scope)
                        sub[pn] = (u[0], "alias") if u else (None, "none")
                v = eval_body(env, callee, sub, inline_stack + (name,))
                if v is not None:
                    value = v
                i += 2
                continue
            # --- method call with a closure argument: closure params alias the receiver ---------------------------
            if is_method:
                recv_uses = tracked_uses(env, items[max(0, i - 2):i - 1], scope)
                sc2 = scope
                cl = closure_params(argg.items)
                if cl and recv_uses:
                    sc2 = dict(scope)
                    for p in cl:
                        sc2[p] = (recv_uses[0], "alias")
                eval_items(env, argg.items, sc2, depth + 1, inline_stack)
                i += 2
                continue
            # any other call: walk the arguments
            v = eval_items(env, argg.items, scope, depth + 1, inline_stack)
            i += 2
            continue
        i += 1
    return value


def split_params(group):
    """like split_args but commas inside `<..>` (generic arguments of a type) do not split"""
    args, cur, d = [], [], 0
    for x in group.items:
        if is_tok(x, "<"):
            d += 1
        elif is_tok(x, ">") and d:
            d -= 1
        if is_tok(x, ",") and d == 0:
            args.append(cur); cur = []
        else:
            cur.append(x)
    if cur:
        args.append(cur)
    return args


def closure_params(items):
    if items and is_tok(items[0], "|"):
        ps = []
        for x in items[1:]:
            if is_tok(x, "|"):
                return ps
            if is_tok(x, kind="ident") and x.text != "mut":
                ps.append(x.text)
    return []


def param_names(fn):
    names = []
    for a in split_params(fn.params):
        ids = [t.text for t in a if isinstance(t, Tok) and t.kind == "ident"]
        if not ids:
            continue
        if "self" in ids[:3] and ":" not in [t.text for t in a if isinstance(t, Tok)][:3]:
            names.append("self")
        else:
            ids = [x for x in ids if x != "mut"]
            names.append(ids[0])
    return names


def param_exclusive(fn):
    """per parameter: True when it is taken by value or through `&mut` (the callee has exclusive access)"""
    out = []
    for a in split_params(fn.params):
        ids = [t.text for t in a if isinstance(t, Tok) and t.kind == "ident"]
        if not ids:
            continue
        txt = flat_text(a).replace(" ", "")
        if "self" in ids[:3] and ":" not in txt.split("self")[0]:
            out.append(not txt.startswith("&") or txt.startswith("&mut") or re.match(r"&'\w+mut", txt) is not None)
        else:
            ty = txt.split(":", 1)[1] if ":" in txt else ""
            shared = ty.startswith("&") and not re.match(r"&('\w+)?mut", ty)
            shared = shared or ty.startswith("ConstPointer")
            out.append(not shared)
    return out


def split_statements(body):
    """top-level statements of a `{}` group: split at `;`; a trailing run without `;` is the tail expression"""
    stmts, cur = [], []
    for x in body.items:
        if is_tok(x, ";"):
            stmts.append((cur, True)); cur = []
        else:
            cur.append(x)
            # `if .. {}` / `match .. {}` / `unsafe {}` blocks used as statements end at their `}` when followed by `let`
    if cur:
        stmts.append((cur, False))
    return stmts


def eval_body(env, fn, scope, inline_stack=()):
    """returns the value of the function: ('owned', r, det) when it returns an owning wrapper / struct"""
    scope = dict(scope)
    ret = None
    stmts = split_statements(fn.body)
    for idx, (st, has_semi) in enumerate(stmts):
        # a block-statement followed directly by `let` in the same run: split there
        runs, cur = [], []
        for x in st:
            if is_tok(x, "let") and cur and isinstance(cur[-1], Group) and cur[-1].open == "{":
                runs.append(cur); cur = []
            cur.append(x)
        runs.append(cur)
        for run in runs:
            if run and is_tok(run[0], "let"):
                # pattern up to '=' at top level
                k = 1
                while k < len(run) and not is_tok(run[k], "="):
                    k += 1
                pat, init = run[1:k], run[k + 1:]
                # names bound: identifiers of the pattern before any ':' type annotation
                pn = []
                for x in pat:
                    if is_tok(x, ":"):
                        break
                    if is_tok(x, kind="ident") and x.text not in ("mut", "ref"):
                        pn.append(x.text)
                    if isinstance(x, Group):
                        pn += [nm for nm in idents(x.items) if nm not in ("mut", "ref")]
                v = eval_items(env, init, scope, 0, inline_stack)
                if v is not None and v[0] == "owned":
                    for nm in pn:
                        scope[nm] = (v[1], "owned")
                elif v is not None and v[0] == "raw":
                    for nm in pn:
                        scope[nm] = (v[1], "raw")
                else:
                    # a view (`x.as_const()`, `x.project(..)`, `&x[..]`, `x.field`) aliases x; a value computed *from* x
                    # by a call (an integer status, a length) does not
                    head = None
                    for x in init:
                        if is_tok(x, "&") or is_tok(x, "*") or (is_tok(x, kind="ident") and x.text in ("mut", "raw", "const")):
                            continue
                        head = x
                        break
                    u = []
                    if is_tok(head, kind="ident") and head.text in scope and scope[head.text][0] is not None:
                        u = [scope[head.text][0]]
                    for nm in pn:
                        if u:
                            scope[nm] = (u[0], "alias")
                        else:
                            scope.pop(nm, None)
            else:
                is_tail = (idx == len(stmts) - 1 and not has_semi and run is runs[-1])
                v = eval_items(env, run, scope, 0, inline_stack)
                if is_tail or (run and is_tok(run[0], "return")):
                    r = returned(env, run, scope, v)
                    if r is not None and is_tail:
                        ret = r
    return ret


def returned(env, run, scope, v):
    """the owned resource a tail / return expression hands to the caller"""
    if v is not None and v[0] == "owned":
        return v
    # struct literal  Name { a, b: c }  or  Self { .. }  (possibly inside Ok( .. ))
    def find(items):
        for k, x in enumerate(items):
            if isinstance(x, Group) and x.open == "{" and k > 0 and is_tok(items[k - 1], kind="ident") and items[k - 1].text[0].isupper():
                for nm in idents(x.items):
                    if nm in scope and scope[nm][1] == "owned":
                        return ("owned", scope[nm][0], False)
            if isinstance(x, Group):
                r = find(x.items)
                if r:
                    return r
        return None
    r = find(run)
    if r:
        return r
    # bare variable:  Ok(key) / key
    names = [nm for nm in idents(run) if nm in scope and scope[nm][1] == "owned"]
    words = [nm for nm in idents(run)]
    if names and set(words) <= set(names) | {"Ok", "Some", "return", "Self"}:
        return ("owned", scope[names[0]][0], False)
    return None


def translate(repo="/repo"):
    base = os.path.join(repo, "paseto-v3-aws-lc", "src", "lc")
    mod_src = open(os.path.join(base, "mod.rs")).read()
    ptr_src = open(os.path.join(base, "ptr.rs")).read()
    mt = drop_test_modules(tree(lex(mod_src)))
    fns = find_fns(mt)
    # names imported from aws_lc (the `use aws_lc::{..}` list) + anything called through `aws_lc::`
    ffi = set()
    items = mt.items
    for k, x in enumerate(items):
        if is_tok(x, "use") and k + 3 < len(items) and is_tok(items[k + 1], "aws_lc") and is_tok(items[k + 2], "::"):
            g = items[k + 3]
            if isinstance(g, Group):
                ffi |= set(n for n in idents(g.items) if n not in ("self", "as"))
            elif is_tok(g, kind="ident"):
                ffi.add(g.text)
    toks = lex(mod_src)
    for k, t in enumerate(toks):
        if t.text == "aws_lc" and k + 2 < len(toks) and toks[k + 1].text == "::" and toks[k + 2].kind == "ident" and k + 3 < len(toks) and toks[k + 3].text == "(":
            ffi.add(toks[k + 2].text)
    ffi_fns = set(n for n in ffi if n not in TYPE_NAMES and not n[0].islower() or n in ("point_conversion_form_t",)) - TYPE_NAMES
    ffi_fns = set(n for n in ffi if n not in TYPE_NAMES and n != "point_conversion_form_t")
    by_name = {}
    for f in fns:
        by_name.setdefault(f.name, []).append(f)
    out_fns, unknown, notes, shared_mut, thread_state = [], set(), [], [], []
    for f in fns:
        env = Env(by_name, ffi_fns)
        scope = {}
        for pn, excl in zip(param_names(f), param_exclusive(f)):
            r = env.fresh()
            env.borrowed.append(r)
            scope[pn] = (r, "borrowed")
            if not excl:
                env.shared.add(r)
        v = eval_body(env, f, scope)
        acts = [a for a in env.acts if a]
        if not acts:
            continue
        qual = (f.self_type + "::" if f.self_type else "") + f.name
        if f.trait:
            qual = "<%s as %s>::%s" % (f.self_type, f.trait, f.name)
        rets = [v[1]] if v is not None and v[0] == "owned" else []
        out_fns.append((qual, env.borrowed, acts, rets))
        shared_mut += [(qual, nm) for nm in env.shared_mut]
        thread_state += [(qual, nm) for nm in env.thread_state]
        unknown |= env.unknown
        notes += ["%s: %s" % (qual, x) for x in env.notes]
    # ---- lc/ptr.rs facts ---------------------------------------------------------------------------------------
    pt = drop_test_modules(tree(lex(ptr_src)))
    pfns = find_fns(pt)
    def body_text(sel):
        for f in pfns:
            if sel(f):
                return flat_text(f.body.items)
        return None
    managed_drop = body_text(lambda f: f.name == "drop" and f.trait == "Drop" and f.self_type == "ManagedPointer")
    detach_drop = body_text(lambda f: f.name == "drop" and f.trait == "Drop" and f.self_type == "DetachablePointer")
    detach_fn = body_text(lambda f: f.name == "detach" and f.self_type == "DetachablePointer")
    norm = lambda s: (s or "").replace(" ", "")
    managed_ok = norm(managed_drop) == "self.pointer.free();"
    dd = norm(detach_drop)
    detach_drop_ok = dd.startswith("ifletSome(") and "=self.pointer.take()" in dd and dd.count(".free()") == 1 and "else" not in dd
    dt = norm(detach_fn)
    detach_ok = "self.pointer.take()" in dt and ".free(" not in dt
    # type aliases LcPtr / DetachableLcPtr
    ptxt = norm(flat_text(pt.items))
    alias_ok = "typeLcPtr<T>=ManagedPointer<*mutT>;" in ptxt and "typeDetachableLcPtr<T>=DetachablePointer<*mutT>;" in ptxt
    # create_pointer!(T, free) table and the macro's free body
    free_table = []
    its = pt.items
    for k, x in enumerate(its):
        if is_tok(x, "create_pointer") and k + 2 < len(its) and is_tok(its[k + 1], "!") and isinstance(its[k + 2], Group):
            a = split_args(its[k + 2])
            if len(a) == 2:
                free_table.append((flat_text(a[0]).replace(" ", ""), flat_text(a[1]).replace(" ", "")))
    macro_free_ok = "fnfree(&mutself){unsafe{letptr=*self;$free(ptr.cast());}}" in ptxt
    # unsafe impl Send / Sync in mod.rs
    sendsync = []
    for k, x in enumerate(items):
        if is_tok(x, "unsafe") and k + 4 < len(items) and is_tok(items[k + 1], "impl") and is_tok(items[k + 3], "for"):
            sendsync.append((items[k + 2].text, items[k + 4].text))
    # fields of the structs of mod.rs
    structs = []
    for k, x in enumerate(items):
        if is_tok(x, "struct") and k + 2 < len(items) and isinstance(items[k + 2], Group) and items[k + 2].open == "{":
            fields = []
            for a in split_args(items[k + 2]):
                txt = flat_text(a).replace(" ", "")
                if ":" in txt:
                    fields.append(txt.split(":", 1)[1])
            structs.append((items[k + 1].text, fields))
    # fields of the unsafe-Send/Sync types, followed through the structs of both files: anything with a non-atomic shared
    # count or interior mutability makes `unsafe impl Send / Sync` unsound whatever the methods do
    NOT_SENDABLE = {"Rc", "Weak", "Cell", "RefCell", "UnsafeCell", "OnceCell", "LazyCell"}
    all_structs = dict(structs)
    pits = pt.items
    for k, x in enumerate(pits):
        if is_tok(x, "struct") and k + 1 < len(pits) and is_tok(pits[k + 1], kind="ident"):
            j = k + 2
            while j < len(pits) and not isinstance(pits[j], Group) and not is_tok(pits[j], ";"):
                j += 1
            if j < len(pits) and isinstance(pits[j], Group):
                all_structs[pits[k + 1].text] = [flat_text(pits[j].items).replace(" ", "")]
    def field_idents(name, seen):
        out = []
        if name in seen or name not in all_structs:
            return out
        seen.add(name)
        import re as _re
        for fty in all_structs[name]:
            for w in _re.findall(r"[A-Za-z_][A-Za-z0-9_]*", fty):
                out.append(w)
                out += field_idents(w, seen)
        return out
    send_sync_bad = []
    for tr, ty in sendsync:
        for w in field_idents(ty, set()):
            if w in NOT_SENDABLE:
                send_sync_bad.append((ty, w))
    return dict(send_sync_bad=sorted(set(send_sync_bad)), thread_state=sorted(set(thread_state)), shared_mut=sorted(set(shared_mut)), fns=out_fns, unknown=sorted(unknown), notes=notes, managed_ok=managed_ok, detach_drop_ok=detach_drop_ok,
                detach_ok=detach_ok, alias_ok=alias_ok, free_table=free_table, macro_free_ok=macro_free_ok,
                sendsync=sorted(sendsync), structs=structs, ffi=sorted(ffi_fns))


def lean_str(s):
    return '"' + s.replace("\\", "\\\\").replace('"', '\\"') + '"'


def emit(repo="/repo"):
    d = translate(repo)
    L = []
    L.append("import PasetoModel.Ffi")
    L.append("/-! GENERATED on every run by tools/ffiscan.py from /repo's paseto-v3-aws-lc/src/lc/{mod,ptr}.rs. Do not edit. -/")
    L.append("namespace PM.Extracted.Ffi")
    L.append("open PM.Ffi")
    L.append("/-- ownership-relevant action lists, one per function of lc/mod.rs that touches aws-lc (helpers inlined) -/")
    L.append("def fns : List Fn := [")
    rows = []
    for name, borrowed, acts, rets in d["fns"]:
        rows.append("  { name := %s, borrowed := [%s],\n    body := [%s],\n    returns := [%s] }" % (
            lean_str(name), ", ".join(map(str, borrowed)), ", ".join(acts), ", ".join(map(str, rets))))
    L.append(",\n".join(rows))
    L.append("]")
    b = lambda x: "true" if x else "false"
    L.append("/-- aws-lc functions called by lc/mod.rs that the translator's classification table does not know -/")
    L.append("def unclassified : List String := [%s]" % ", ".join(lean_str(x) for x in d["unknown"]))
    L.append("/-- (function, aws-lc call): calls that write through (or release) an object the function only holds by shared reference -/")
    L.append("def sharedMutations : List (String × String) := [%s]" % ", ".join("(%s, %s)" % (lean_str(a), lean_str(c)) for a, c in d["shared_mut"]))
    L.append("/-- (function, aws-lc call): calls that consult or change per-thread / process-wide library state (error queue, RNG seeding, global configuration) -/")
    L.append("def threadStateCalls : List (String × String) := [%s]" % ", ".join("(%s, %s)" % (lean_str(a), lean_str(c)) for a, c in d["thread_state"]))
    L.append("/-- aws-lc functions imported by lc/mod.rs -/")
    L.append("def ffiImports : List String := [%s]" % ", ".join(lean_str(x) for x in d["ffi"]))
    L.append("/-- `impl Drop for ManagedPointer` is exactly `self.pointer.free();` -/")
    L.append("def managedDropFrees : Bool := " + b(d["managed_ok"]))
    L.append("/-- `impl Drop for DetachablePointer` frees iff the pointer is still present (`if let Some(..) = self.pointer.take() { .free() }`) -/")
    L.append("def detachableDropFreesIffPresent : Bool := " + b(d["detach_drop_ok"]))
    L.append("/-- `detach` takes the pointer out of the wrapper and frees nothing -/")
    L.append("def detachTakes : Bool := " + b(d["detach_ok"]))
    L.append("/-- `LcPtr<T> = ManagedPointer<*mut T>` and `DetachableLcPtr<T> = DetachablePointer<*mut T>` -/")
    L.append("def aliasesAsModelled : Bool := " + b(d["alias_ok"]))
    L.append("/-- the `create_pointer!` macro's `free` calls exactly the given function on the pointer -/")
    L.append("def macroFreeCallsGiven : Bool := " + b(d["macro_free_ok"]))
    L.append("/-- pointee type ↦ release function, from the `create_pointer!` invocations -/")
    L.append("def freeTable : List (String × String) := [%s]" % ", ".join("(%s, %s)" % (lean_str(a), lean_str(c)) for a, c in d["free_table"]))
    L.append("/-- `unsafe impl <trait> for <type>` in lc/mod.rs -/")
    L.append("def unsafeImpls : List (String × String) := [%s]" % ", ".join("(%s, %s)" % (lean_str(a), lean_str(c)) for a, c in d["sendsync"]))
    L.append("/-- (type with an `unsafe impl Send / Sync`, offending field component): `Rc`, `Weak`, `Cell`, `RefCell`, `UnsafeCell`, … reachable through its fields -/")
    L.append("def sendSyncFieldViolations : List (String × String) := [%s]" % ", ".join("(%s, %s)" % (lean_str(a), lean_str(c)) for a, c in d["send_sync_bad"]))
    L.append("/-- structs of lc/mod.rs with their field types -/")
    L.append("def structs : List (String × List String) := [%s]" % ", ".join("(%s, [%s])" % (lean_str(a), ", ".join(lean_str(f) for f in fs)) for a, fs in d["structs"]))
    L.append("end PM.Extracted.Ffi")
    return "\n".join(L) + "\n", d


if __name__ == "__main__":
    text, d = emit(sys.argv[1] if len(sys.argv) > 1 else "/repo")
    sys.stdout.write(text)
    for n in d["notes"]:
        sys.stderr.write("note: %s\n" % n)
