import hashlib, json, os, re, subprocess, sys, time

VERIF = os.path.dirname(os.path.dirname(os.path.abspath(__file__)))
LEAN = os.path.join(VERIF, "lean")
HARNESS = os.path.join(VERIF, "harness")
BUILD = os.path.join(VERIF, ".build")
RUN = os.path.join(BUILD, "run")
PM = os.path.join(BUILD, "target", "release", "pm")
PM_RNG = os.path.join(BUILD, "target-rng", "release", "pm")
DRIVER = os.path.join(LEAN, ".lake", "build", "bin", "pmdriver")
ALLOWED_AXIOMS = {"propext", "Classical.choice", "Quot.sound"}
TRUSTED_BASE = [
    "Lean 4.33 kernel; axioms of every property theorem are audited on each run with #print axioms: only propext, Classical.choice, Quot.sound are accepted",
    "no sorry/admit/axiom/native_decide/bv_decide/implemented_by/unsafe/maxHeartbeats 0 in the Lean sources (scanned on each run)",
    "the correspondence harness (/verif/harness: generators, canonicalisation, in-process calls of the real library) and this driver",
    "the fact generator `pm facts` (reads constants through the public API) and the hand-written model of function bodies, tied behaviourally by the correspondence streams",
    "third-party primitives (SHA-2, HMAC, HKDF, PBKDF2, AES, ChaCha20, Poly1305, BLAKE2b, Argon2id, Ed25519, X25519, P-384, RSA, serde_json, jiff, OS RNG, aws-lc, libsodium, rustc, cargo) are modelled, not verified; their laws are explicit hypotheses of the theorems",
]


def par(cmd, text, env=None, timeout=14400, nproc=None, heavy=False):
    """run a line-by-line filter over `text` in parallel chunks (output lines correspond 1:1 to input lines)"""
    lines = text.splitlines()
    n = nproc or min(16, os.cpu_count() or 4)
    if len(lines) < (2 if heavy else 400):
        return sh(cmd, stdin=text.encode(), env=env, timeout=timeout)
    if heavy:
        n = min(n, len(lines))
    size = (len(lines) + n - 1) // n
    chunks = [lines[i:i + size] for i in range(0, len(lines), size)]
    e = dict(os.environ)
    if env:
        e.update(env)
    procs = []
    for c in chunks:
        pr = subprocess.Popen(cmd, stdin=subprocess.PIPE, stdout=subprocess.PIPE, stderr=subprocess.PIPE, env=e)
        procs.append(pr)
    import threading
    outs = [None] * len(chunks)
    def feed(k):
        try:
            o, er = procs[k].communicate(("\n".join(chunks[k]) + "\n").encode(), timeout=timeout)
            outs[k] = (procs[k].returncode, o.decode("utf-8", "replace"), er.decode("utf-8", "replace"))
        except subprocess.TimeoutExpired:
            procs[k].kill()
            procs[k].communicate()
            outs[k] = (124, "", "timeout")
    th = [threading.Thread(target=feed, args=(k,)) for k in range(len(chunks))]
    for t in th:
        t.start()
    for t in th:
        t.join()
    rc = max(abs(o[0]) for o in outs)
    return rc, "".join(o[1] for o in outs), "".join(o[2] for o in outs)


def sh(cmd, cwd=None, env=None, stdin=None, timeout=None):
    e = dict(os.environ)
    e["CARGO_NET_OFFLINE"] = "true"
    if env:
        e.update(env)
    try:
        p = subprocess.run(cmd, cwd=cwd, env=e, input=stdin, stdout=subprocess.PIPE, stderr=subprocess.PIPE, timeout=timeout)
    except subprocess.TimeoutExpired:
        return 124, "", "timeout"
    return p.returncode, p.stdout.decode("utf-8", "replace"), p.stderr.decode("utf-8", "replace")


class Ctx:
    def __init__(self, pid, tier, seed):
        self.pid, self.tier, self.seed = pid, tier, seed
        self.t0 = time.time()
        self.notes = []
        self.p_broken = []      # broken proof obligations (names / messages)
        self.k_broken = []      # correspondence disagreements
        self.o_fail = []        # oracle failures: dicts
        self.known = []         # matched known findings
        self.cov = {"evaluations": 0, "distinct_nontrivial": 0, "samples": [], "streams": {}}
        self.distinct = set()
        self.last_ops = {}

    def note(self, s):
        self.notes.append(s)
        print("  " + s, flush=True)


# ---------------------------------------------------------------- build steps

def build_harness(ctx, cfg_rng=False):
    os.makedirs(RUN, exist_ok=True)
    lock_src = "/repo/Cargo.lock"
    lock_dst = os.path.join(HARNESS, "Cargo.lock")
    try:
        if not os.path.exists(lock_dst):
            import shutil
            shutil.copy(lock_src, lock_dst)
    except Exception:
        pass
    env = {}
    cmd = ["cargo", "build", "--release", "--offline"]
    if cfg_rng:
        env["RUSTFLAGS"] = '--cfg getrandom_backend="custom" --cfg pm_custom_rng'
        env["CARGO_TARGET_DIR"] = os.path.join(BUILD, "target-rng")
    rc, out, err = sh(cmd, cwd=HARNESS, env=env, timeout=3600)
    if rc != 0:
        tail = "\n".join(err.strip().splitlines()[-30:])
        ctx.k_broken.append({"kind": "harness-build", "detail": tail})
        ctx.note("harness build FAILED")
        return False
    return True


def regen_facts(ctx):
    """Regenerate Extracted/*.lean from the code; write only when content changed."""
    ok = True
    for sub, rel in (("facts", "PasetoModel/Extracted/Headers.lean"), ("impls", "PasetoModel/Extracted/Impls.lean")):
        rc, out, err = sh([PM, sub], timeout=600)
        if rc != 0 or "namespace PM.Extracted" not in out:
            ctx.k_broken.append({"kind": "facts", "detail": (err or out)[-2000:]})
            ok = False
            continue
        path = os.path.join(LEAN, rel)
        old = open(path).read() if os.path.exists(path) else None
        if old != out:
            tmp = path + ".tmp%d" % os.getpid()
            open(tmp, "w").write(out)
            os.replace(tmp, path)
            ctx.note("facts changed: %s regenerated" % rel)
    # C12 / C18 facts: public surface around unverified tokens and keys (python scan)
    try:
        import apiscan
        text = apiscan.emit()
        path = os.path.join(LEAN, "PasetoModel", "Extracted", "Api.lean")
        old = open(path).read() if os.path.exists(path) else None
        if old != text:
            tmp = path + ".tmp%d" % os.getpid()
            open(tmp, "w").write(text)
            os.replace(tmp, path)
            ctx.note("facts changed: PasetoModel/Extracted/Api.lean regenerated")
    except Exception as e:
        ctx.k_broken.append({"kind": "facts", "detail": "apiscan failed: %r" % (e,)})
        ok = False
    # C04 / C17 facts: the aws-lc wrapper functions translated to ownership action lists; where `unsafe` and shared state occur
    for modname, rel in (("ffiscan", "Ffi.lean"), ("srcscan", "Source.lean"), ("b64scan", "B64Src.lean")):
        try:
            mod = __import__(modname)
            text, scan_info = mod.emit()
            if modname == "b64scan":
                off = [k for k, v in scan_info.items() if not v["available"]]
                ctx.cov["b64_kernels_translated_from_source"] = {k: v["available"] for k, v in scan_info.items()}
                if off:
                    ctx.note("base64 kernels outside the translator's subset (theorems vacuous, exhaustive correspondence is the tie): %s" % ", ".join(off))
            path = os.path.join(LEAN, "PasetoModel", "Extracted", rel)
            old = open(path).read() if os.path.exists(path) else None
            if old != text:
                tmp = path + ".tmp%d" % os.getpid()
                open(tmp, "w").write(text)
                os.replace(tmp, path)
                ctx.note("facts changed: PasetoModel/Extracted/%s regenerated" % rel)
        except Exception as e:
            ctx.k_broken.append({"kind": "facts", "detail": "%s failed: %r" % (modname, e)})
            ok = False
    # C19 facts: feature tables + cfg-gate scan (python)
    try:
        import featscan
        text, info = featscan.emit()
        path = os.path.join(LEAN, "PasetoModel", "Extracted", "Features.lean")
        old = open(path).read() if os.path.exists(path) else None
        if old != text:
            tmp = path + ".tmp%d" % os.getpid()
            open(tmp, "w").write(text)
            os.replace(tmp, path)
            ctx.note("facts changed: PasetoModel/Extracted/Features.lean regenerated")
        ctx.feat_info = info
    except Exception as e:  # a scan failure degrades to the behavioural tie (cargo check of subsets), with a note
        ctx.note("feature scan failed: %r" % (e,))
        ctx.k_broken.append({"kind": "feature-scan", "detail": repr(e)})
        ok = False
    return ok


def theorems_of(pid):
    src = open(os.path.join(LEAN, "PasetoModel", "Props", pid + ".lean")).read()
    src_nc = strip_comments(src)
    return re.findall(r"^\s*theorem\s+([A-Za-z0-9_'.]+)", src_nc, flags=re.M)


def strip_comments(s):
    out, i, depth = [], 0, 0
    while i < len(s):
        if s.startswith("/-", i):
            depth += 1; i += 2; continue
        if depth and s.startswith("-/", i):
            depth -= 1; i += 2; continue
        if depth:
            if s[i] == "\n":
                out.append("\n")
            i += 1; continue
        if s.startswith("--", i):
            j = s.find("\n", i)
            i = len(s) if j < 0 else j
            continue
        out.append(s[i]); i += 1
    return "".join(out)


FORBIDDEN = re.compile(r"\bsorry\b|\badmit\b|^\s*axiom\s|native_decide|bv_decide|implemented_by|\bunsafe\s|maxHeartbeats\s+0\b", re.M)


def scan_forbidden(ctx):
    bad = []
    for root, _, files in os.walk(os.path.join(LEAN, "PasetoModel")):
        for f in files:
            if f.endswith(".lean"):
                p = os.path.join(root, f)
                m = FORBIDDEN.search(strip_comments(open(p).read()))
                if m:
                    bad.append("%s: %s" % (os.path.relpath(p, LEAN), m.group(0).strip()))
    p = os.path.join(LEAN, "Driver", "Main.lean")
    m = FORBIDDEN.search(strip_comments(open(p).read()))
    if m:
        bad.append("Driver/Main.lean: " + m.group(0).strip())
    for b in bad:
        ctx.p_broken.append({"theorem": "(forbidden token)", "detail": b})
    return not bad


def proof_obligations(ctx):
    """lake build of the property module + driver; audit of axioms."""
    pid = ctx.pid
    thms = theorems_of(pid)
    ctx.cov["obligations"] = len(thms)
    ctx.cov["discharged"] = 0
    ctx.cov["checker_cmd"] = "cd /verif/lean && lake build PasetoModel.Props.%s pmdriver && lake env lean <generated #print axioms file>" % pid
    rc, out, err = sh(["lake", "build", "PasetoModel.Props." + pid, "pmdriver"], cwd=LEAN, timeout=7200)
    if rc != 0:
        errs = [l for l in (out + err).splitlines() if l.startswith("error:")]
        broken = set()
        src = open(os.path.join(LEAN, "PasetoModel", "Props", pid + ".lean")).read().splitlines()
        for l in errs:
            m = re.match(r"error: (\S+?):(\d+):(\d+): (.*)", l)
            if m and m.group(1).endswith("Props/%s.lean" % pid):
                ln = int(m.group(2))
                name = "?"
                for k in range(min(ln, len(src)) - 1, -1, -1):
                    mm = re.match(r"\s*(theorem|example|def)\s*([A-Za-z0-9_'.]*)", src[k])
                    if mm:
                        name = mm.group(2) or ("example@%d" % (k + 1))
                        break
                broken.add(name)
                ctx.p_broken.append({"theorem": "PM.%s.%s" % (pid, name), "detail": l[:400]})
            elif m:
                ctx.p_broken.append({"theorem": "(dependency) " + m.group(1), "detail": l[:400]})
        if not errs:
            ctx.p_broken.append({"theorem": "(lake build)", "detail": (out + err)[-1500:]})
        ctx.note("lake build FAILED: %d error(s)" % max(1, len(errs)))
        return False
    # axiom audit
    audit = os.path.join(RUN, "Audit_%s_%d.lean" % (pid, os.getpid()))
    with open(audit, "w") as f:
        f.write("import PasetoModel.Props.%s\n" % pid)
        for t in thms:
            f.write("#print axioms PM.%s.%s\n" % (pid, t))
    rc, out, err = sh(["lake", "env", "lean", audit], cwd=LEAN, timeout=3600)
    os.unlink(audit)
    seen = {}
    for m in re.finditer(r"'PM\.%s\.([^']+)' (does not depend on any axioms|depends on axioms: \[([^\]]*)\])" % pid, out.replace("\n", " ")):
        axs = set(a.strip() for a in (m.group(3) or "").split(",") if a.strip())
        seen[m.group(1)] = axs
    axioms_used = set()
    for t in thms:
        if t not in seen:
            ctx.p_broken.append({"theorem": "PM.%s.%s" % (pid, t), "detail": "not found by #print axioms: " + (out + err)[-300:]})
        elif not seen[t] <= ALLOWED_AXIOMS:
            ctx.p_broken.append({"theorem": "PM.%s.%s" % (pid, t), "detail": "axioms not allowed: %s" % sorted(seen[t] - ALLOWED_AXIOMS)})
        else:
            ctx.cov["discharged"] += 1
            axioms_used |= seen[t]
    ctx.cov["axioms_used"] = sorted(axioms_used)
    ctx.cov["theorems"] = ["PM.%s.%s" % (pid, t) for t in thms]
    scan_forbidden(ctx)
    if ctx.tier == "thorough":
        # independent re-check of the compiled property module by the toolchain's external kernel checker
        import shutil
        if shutil.which("leanchecker"):
            rc, out, err = sh(["lake", "env", "leanchecker", "PasetoModel.Props." + pid], cwd=LEAN, timeout=3600)
            ctx.cov["leanchecker"] = "ok" if rc == 0 else "FAILED"
            if rc != 0:
                ctx.p_broken.append({"theorem": "(leanchecker) PasetoModel.Props." + pid, "detail": (out + err)[-800:]})
            else:
                ctx.note("leanchecker re-checked PasetoModel.Props.%s" % pid)
    return not ctx.p_broken


# ---------------------------------------------------------------- streams

def canon(line, policy):
    """canonical form of a result line for comparison: `err <variant> <rest>` -> `err <rest>` (variant kept as a class only
    where the property constrains it)"""
    if line.startswith("err"):
        parts = line.split(" ", 2)
        v = parts[1] if len(parts) > 1 else ""
        rest = parts[2] if len(parts) > 2 else ""
        if policy == "class":
            cls = {"crypto": "auth", "invalidToken": "auth", "base64": "auth", "invalidKey": "auth",
                   "payload": "payload", "claims": "claims"}.get(v, v)
            return ("err " + cls + " " + rest).strip()
        if policy == "full":
            return line
        return ("err " + rest).strip()
    return line


def run_stream(ctx, name, gen_args, policy="okerr", oracle=None, pm=PM, ops=None, nontrivial=None, gen_pm=PM, heavy=False, impl_lines=None, timeout=None):
    """generate ops, run implementation and model, diff, run oracle"""
    os.makedirs(RUN, exist_ok=True)
    tag = "%s_%s_%d" % (ctx.pid, name, os.getpid())
    ops_path = os.path.join(RUN, tag + ".ops")
    if ops is None:
        rc, out, err = sh([gen_pm, "gen"] + gen_args + [ctx.tier], env={"VERIF_SEED": str(ctx.seed)}, timeout=7200)
        if rc != 0:
            ctx.k_broken.append({"kind": "generator", "stream": name, "detail": err[-1500:]})
            return
        ops = out
    if " | " in ops:
        # two-stage lines `<model-only op> | <template with $>`: the model (specification instance) builds the artefact,
        # which is then offered to the implementation and to the implementation model
        lines = ops.splitlines()
        idx = [k for k, l in enumerate(lines) if " | " in l]
        stage1 = "\n".join(lines[k].split(" | ", 1)[0] for k in idx) + "\n"
        rc, built, err1 = sh([DRIVER], stdin=stage1.encode(), env={"LEAN_STACK_SIZE": "1048576"}, timeout=14400)
        bl = built.splitlines()
        if rc != 0 or len(bl) != len(idx):
            ctx.k_broken.append({"kind": "model-driver-stage1", "stream": name, "detail": err1[-1500:]})
            return
        for k, b in zip(idx, bl):
            tmpl = lines[k].split(" | ", 1)[1]
            if b.startswith("ok "):
                lines[k] = tmpl.replace("$", b[3:].split(" ")[0])
            else:
                lines[k] = "# stage1 failed: " + lines[k][:200] + " -> " + b
                ctx.k_broken.append({"kind": "stage1", "stream": name, "op": lines[k][:400]})
        ops = "\n".join(lines) + "\n"
    open(ops_path, "w").write(ops)
    ctx.last_ops[name] = ops
    if impl_lines is not None:
        rc, impl, err = 0, "\n".join(impl_lines) + "\n", ""
    else:
        rc, impl, err = par([pm, "exec"], ops, timeout=timeout or (14400 if ctx.tier == "thorough" else 3600), heavy=heavy)
    if rc != 0:
        # the process died (abort / signal) or did not finish: bisect to the offending line
        lines = ops.splitlines()
        hang = rc == 124
        bad = find_crash(pm, lines, step_timeout=max(30, (timeout or 3600) // 4) if hang else 3600)
        ctx.o_fail.append({"stream": name, "op": bad, "impl": ("did-not-terminate" if hang else "process-died rc=%d" % rc),
                           "clause": ("the operation does not terminate on this input (no result, no error)" if hang else "no abort / crash"),
                           "key": "%s/%s" % (name, "hang" if hang else "crash")})
        return
    rc, model, err2 = par([DRIVER], ops, env={"LEAN_STACK_SIZE": "1048576"}, timeout=14400)
    if rc != 0:
        ctx.k_broken.append({"kind": "model-driver", "stream": name, "detail": err2[-1500:]})
        return
    ol, il, ml = ops.splitlines(), impl.splitlines(), model.splitlines()
    if not (len(ol) == len(il) == len(ml)):
        ctx.k_broken.append({"kind": "line-count", "stream": name, "detail": "%d ops, %d impl, %d model" % (len(ol), len(il), len(ml))})
        return
    st = {"ops": 0, "ok": 0, "err": 0, "panic": 0, "disagree": 0, "err_kinds": {}, "op_kinds": {}}
    nk = 0
    for o, i, m in zip(ol, il, ml):
        if not o or o.startswith("#"):
            continue
        st["ops"] += 1
        opk = o.split(" ", 1)[0]
        st["op_kinds"][opk] = st["op_kinds"].get(opk, 0) + 1
        if i.startswith("ok"):
            st["ok"] += 1
        elif i.startswith("err"):
            st["err"] += 1
            ek = " ".join(i.split(" ")[:2])[:40]
            st["err_kinds"][ek] = st["err_kinds"].get(ek, 0) + 1
        elif i.startswith("panic"):
            st["panic"] += 1
        if o.startswith("o."):
            # oracle-only operation: evaluated on the implementation, no model counterpart
            if oracle:
                r = oracle(o, i)
                if r:
                    clause, key = r
                    ctx.o_fail.append({"stream": name, "op": o, "impl": i[:600], "model": "-", "clause": clause, "key": key})
            if nontrivial:
                c = nontrivial(o, i)
                if c is not None:
                    ctx.distinct.add((name, c))
            continue
        if i == "bad-op" or m == "bad-op":
            if i != m:
                nk += 1
                if nk <= 20:
                    ctx.k_broken.append({"kind": "bad-op", "stream": name, "op": o, "impl": i, "model": m})
            continue
        if canon(i, policy) != canon(m, policy):
            st["disagree"] += 1
            nk += 1
            if nk <= 20:
                ctx.k_broken.append({"kind": "disagreement", "stream": name, "op": o, "impl": i[:600], "model": m[:600]})
        if oracle:
            r = oracle(o, i)
            if r:
                clause, key = r
                ctx.o_fail.append({"stream": name, "op": o, "impl": i[:600], "model": m[:600], "clause": clause, "key": key})
        if nontrivial:
            c = nontrivial(o, i)
            if c is not None:
                ctx.distinct.add((name, c))
    if nk > 20:
        ctx.note("stream %s: %d disagreements (first 20 kept)" % (name, nk))
    ctx.cov["evaluations"] += st["ops"]
    ctx.cov["streams"][name] = st
    # samples: a few actual cases
    keep = [k for k in range(len(ol)) if ol[k] and not ol[k].startswith("#")]
    for k in keep[:: max(1, len(keep) // 3)][:3]:
        ctx.cov["samples"].append({"stream": name, "op": ol[k][:300], "impl": il[k][:200], "model": ml[k][:200]})
    ctx.note("stream %-14s ops=%d ok=%d err=%d panic=%d disagree=%d" % (name, st["ops"], st["ok"], st["err"], st["panic"], st["disagree"]))
    try:
        os.unlink(ops_path)
    except OSError:
        pass


def find_crash(pm, lines, step_timeout=3600):
    lo, hi = 0, len(lines)
    # linear chunks then bisect
    while hi - lo > 1:
        mid = (lo + hi) // 2
        rc, _, _ = sh([pm, "exec"], stdin=("\n".join(lines[lo:mid]) + "\n").encode(), timeout=step_timeout)
        if rc != 0:
            hi = mid
        else:
            lo = mid
    return lines[lo] if lo < len(lines) else "?"


# ---------------------------------------------------------------- verdict

def load_known():
    path = os.path.join(VERIF, "known_findings.txt")
    findings = []
    if os.path.exists(path):
        for l in open(path):
            l = l.strip()
            m = re.match(r"finding:\s+property=(\S+)\s+key=(\S+)\s+(.*)", l)
            if m:
                findings.append({"property": m.group(1), "key": m.group(2), "what": m.group(3)})
    return findings


def write_replay(ctx, kind, item):
    os.makedirs(os.path.join(VERIF, "replays"), exist_ok=True)
    h = hashlib.sha256(json.dumps(item, sort_keys=True).encode()).hexdigest()[:12]
    path = os.path.join(VERIF, "replays", "%s-%s.json" % (ctx.pid, h))
    doc = {"property": ctx.pid, "kind": kind, "seed": ctx.seed, "tier": ctx.tier,
           "how_to_replay": "./check %s --replay %s" % (ctx.pid, path)}
    doc.update(item)
    json.dump(doc, open(path, "w"), indent=1)
    return path


def memcheck(ctx, name, lines, pm=PM):
    """supporting run (C04): the real library on `lines` under valgrind memcheck; a reported invalid read/write/free or use of
    uninitialised memory is bisected to one operation line and recorded as an oracle failure"""
    import shutil
    if not shutil.which("valgrind") or not lines:
        ctx.note("memcheck skipped (valgrind not available or nothing to run)")
        return
    vg = ["valgrind", "-q", "--error-exitcode=97", "--leak-check=full", "--errors-for-leak-kinds=definite", pm, "exec"]
    n = min(16, os.cpu_count() or 4, max(1, len(lines) // 8))
    size = (len(lines) + n - 1) // n
    chunks = [lines[i:i + size] for i in range(0, len(lines), size)]
    procs = []
    for c in chunks:
        pr = subprocess.Popen(vg, stdin=subprocess.PIPE, stdout=subprocess.PIPE, stderr=subprocess.PIPE)
        procs.append((pr, c))
    import threading
    res = [None] * len(procs)
    def feed(k):
        pr, c = procs[k]
        try:
            out, err = pr.communicate(("\n".join(c) + "\n").encode(), timeout=7200)
            res[k] = (pr.returncode, out.decode(errors="replace"), err.decode(errors="replace"))
        except subprocess.TimeoutExpired:
            pr.kill()
            res[k] = (-9, "", "timeout")
    ths = [threading.Thread(target=feed, args=(k,)) for k in range(len(procs))]
    for t in ths: t.start()
    for t in ths: t.join()
    bad = 0
    for (rc, out, err), (_, c) in zip(res, procs):
        if rc == 0:
            continue
        bad += 1
        if bad > 2:
            continue        # one or two bisected failing inputs are enough; the rest is counted
        if rc == -9:
            ctx.note("memcheck chunk timed out (%d lines)" % len(c))
            continue
        # bisect to a single line
        cur = c
        while len(cur) > 1:
            half = cur[:len(cur) // 2]
            rc2, _, _ = sh(vg, stdin=("\n".join(half) + "\n").encode(), timeout=3600)
            cur = half if rc2 == 97 else cur[len(cur) // 2:]
        rc3, _, err3 = sh(vg, stdin=(cur[0] + "\n").encode(), timeout=3600)
        detail = (err3 if rc3 == 97 else err)[-1500:]
        first = [l for l in detail.splitlines() if "==" in l][:6]
        be = (cur[0].split(" ") + ["?", "?"])[1]
        ctx.o_fail.append({"stream": name + "/memcheck", "op": cur[0], "impl": " | ".join(x.split("== ", 1)[-1] for x in first)[:600], "model": "-",
                           "clause": "valgrind memcheck reports an invalid memory access, use of uninitialised memory, invalid / double free or a definitely lost block (an owned C object that is never freed) while the library processes this input",
                           "key": "%s/memcheck" % be})
    ctx.cov["streams"][name + "/memcheck"] = {"ops": len(lines), "chunks": len(chunks), "chunks_with_errors": bad, "tool": "valgrind memcheck (supporting run, not a proof)"}
    print("  memcheck %-12s ops=%d chunks=%d errors=%d" % (name, len(lines), len(chunks), bad), flush=True)


def finish(ctx, level_text=None):
    known = load_known()
    new_fail = []
    for f in ctx.o_fail:
        hit = [k for k in known if k["property"] == ctx.pid and k["key"] == f.get("key")]
        if hit:
            ctx.known.append((hit[0], f))
        else:
            new_fail.append(f)
    printed = set()
    for k, f in ctx.known:
        if k["key"] not in printed:
            printed.add(k["key"])
            print("KNOWN-FINDING: property=%s %s" % (ctx.pid, k["what"]))
    rc = 0
    violations = 0
    if new_fail:
        f = new_fail[0]
        path = write_replay(ctx, "failing-input", {"op_lines": [f["op"]], "impl_result": f.get("impl"), "model_result": f.get("model"),
                                                   "oracle": f["clause"], "stream": f["stream"], "other_failures": len(new_fail) - 1,
                                                   "broken_obligations": ctx.p_broken[:20], "broken_correspondence": ctx.k_broken[:20]})
        print("VIOLATION property=%s replay=%s" % (ctx.pid, path))
        violations = len(new_fail)
        rc = 1
    elif ctx.p_broken or ctx.k_broken:
        item = {"broken_obligations": ctx.p_broken[:20], "broken_correspondence": ctx.k_broken[:20],
                "op_lines": [k["op"] for k in ctx.k_broken if "op" in k][:20],
                "theorem": ctx.p_broken[0]["theorem"] if ctx.p_broken else None}
        kind = "broken-obligation" if ctx.p_broken else "broken-correspondence"
        path = write_replay(ctx, kind, item)
        print("VIOLATION property=%s replay=%s no-failing-input-found" % (ctx.pid, path))
        violations = 1
        rc = 1
    ctx.cov["distinct_nontrivial"] = len(ctx.distinct)
    ctx.cov["trusted_base"] = TRUSTED_BASE
    ctx.cov["traces_validated_against_impl"] = ctx.cov["evaluations"]
    ev = {"property_id": ctx.pid, "tier": ctx.tier, "seed": ctx.seed, "level": "proof", "coverage": ctx.cov,
          "assumptions": TRUSTED_BASE, "wall_s": round(time.time() - ctx.t0, 2), "violations": violations,
          "known_findings_hit": sorted({k["key"] for k, _ in ctx.known}), "known_finding_inputs": len(ctx.known), "notes": ctx.notes[-40:]}
    os.makedirs(os.path.join(VERIF, "evidence"), exist_ok=True)
    tmp = os.path.join(VERIF, "evidence", ctx.pid + ".json.tmp")
    json.dump(ev, open(tmp, "w"), indent=1)
    os.replace(tmp, os.path.join(VERIF, "evidence", ctx.pid + ".json"))
    print("%s %s: obligations=%s discharged=%s evaluations=%d distinct_nontrivial=%d wall=%.1fs -> %s" % (
        ctx.pid, ctx.tier, ctx.cov.get("obligations"), ctx.cov.get("discharged"), ctx.cov["evaluations"],
        len(ctx.distinct), time.time() - ctx.t0, "OK" if rc == 0 else "VIOLATION"))
    return rc


def do_replay(pid, path):
    doc = json.load(open(path))
    ops = "\n".join(doc.get("op_lines") or []) + "\n"
    ctx = Ctx(pid, "quick", 0)
    build_harness(ctx)
    rc, impl, _ = sh([PM, "exec"], stdin=ops.encode())
    rc2, model, _ = sh([DRIVER], stdin=ops.encode())
    for o, i, m in zip(ops.splitlines(), impl.splitlines(), model.splitlines()):
        print("op    : " + o)
        print("impl  : " + i)
        print("model : " + m)
    if doc.get("broken_obligations"):
        print("broken obligations:", json.dumps(doc["broken_obligations"], indent=1))
    return 0


def main(argv):
    import props
    if not argv:
        print(__doc__)
        return 2
    pid = argv[0]
    tier = os.environ.get("VERIF_TIER", "quick")
    replay = None
    i = 1
    while i < len(argv):
        if argv[i] == "--tier":
            tier = argv[i + 1]; i += 2
        elif argv[i] == "--replay":
            replay = argv[i + 1]; i += 2
        else:
            i += 1
    if replay:
        return do_replay(pid, replay)
    try:
        seed = int(os.environ.get("VERIF_SEED", "1"))
    except ValueError:
        seed = 1
    if pid not in props.PROPS:
        print("unknown property " + pid)
        return 2
    ctx = Ctx(pid, tier, seed)
    print("== %s tier=%s seed=%d" % (pid, tier, seed), flush=True)
    spec = props.PROPS[pid]
    if build_harness(ctx):
        regen_facts(ctx)
    proof_obligations(ctx)
    if not any(k.get("kind") == "harness-build" for k in ctx.k_broken) and os.path.exists(DRIVER):
        spec["run"](ctx)
        # targeted search: when a proof obligation or the correspondence broke and the quick streams
        # found no failing input, search with the thorough budgets
        if (ctx.p_broken or ctx.k_broken) and not ctx.o_fail and tier == "quick" and spec.get("search", True):
            ctx.note("obligation/correspondence broken: searching for a failing input with thorough budgets")
            ctx.tier = "thorough"
            try:
                spec["run"](ctx)
            finally:
                ctx.tier = tier
    return finish(ctx)
