"""C19 facts: feature tables from Cargo.toml (cross-checked with `cargo metadata`) and an item-level scan of
`#[cfg(feature ..)]` gates with, per gated context, the optional crates and gated sibling items it refers to.
Emits lean/PasetoModel/Extracted/Features.lean."""
import json, os, re, subprocess, sys, tomllib

CRATES = ["paseto-v1", "paseto-v2", "paseto-v3", "paseto-v4"]


def parse_cfg(s):
    """parse the inside of #[cfg(...)] into a nested tuple"""
    s = s.strip()
    m = re.fullmatch(r'feature\s*=\s*"([^"]+)"', s)
    if m:
        return ("feat", m.group(1))
    for kw in ("all", "any", "not"):
        if s.startswith(kw + "(") and s.endswith(")"):
            inner = s[len(kw) + 1:-1]
            parts, depth, cur = [], 0, ""
            for ch in inner:
                if ch == "(":
                    depth += 1
                if ch == ")":
                    depth -= 1
                if ch == "," and depth == 0:
                    parts.append(cur); cur = ""
                else:
                    cur += ch
            if cur.strip():
                parts.append(cur)
            return (kw, [parse_cfg(p) for p in parts])
    return ("other", s)   # test, target_os, ... : treated as true (not a feature gate)


def strip_comments(src):
    src = re.sub(r"//[^\n]*", "", src)
    return re.sub(r"/\*.*?\*/", "", src, flags=re.S)


def items_of(src):
    """top-level items with their cfg gates: [(cfgs, header, body)]"""
    src = strip_comments(src)
    i, n, out = 0, len(src), []
    pending = []
    while i < n:
        m = re.compile(r"\s*#\[cfg\(").match(src, i)
        if m:
            j = m.end()
            depth = 1
            while depth:
                if src[j] == "(":
                    depth += 1
                elif src[j] == ")":
                    depth -= 1
                j += 1
            pending.append(parse_cfg(src[m.end():j - 1]))
            i = src.index("]", j) + 1
            continue
        m = re.compile(r"\s*#!?\[[^\]]*\]").match(src, i)
        if m:
            i = m.end()
            continue
        m = re.compile(r"\s+").match(src, i)
        if m and m.end() > i:
            i = m.end()
            continue
        # an item: up to ';' or a balanced '{...}' at depth 0
        j, depth = i, 0
        while j < n:
            ch = src[j]
            if ch in "{([":
                depth += 1
            elif ch in "})]":
                depth -= 1
                if depth == 0 and ch == "}":
                    j += 1
                    break
            elif ch == ";" and depth == 0:
                j += 1
                break
            j += 1
        text = src[i:j]
        out.append((pending, text))
        pending = []
        i = j
    return out


def scan_crate(root):
    manifest = tomllib.load(open(os.path.join(root, "Cargo.toml"), "rb"))
    feats = manifest.get("features", {})
    deps = manifest.get("dependencies", {})
    optional = [d for d, v in deps.items() if isinstance(v, dict) and v.get("optional")]
    # which features enable an optional dependency
    enables = {d: [f for f, l in feats.items() if ("dep:" + d) in l or d in l] for d in optional}
    src_root = os.path.join(root, "src")
    # module gates: `#[cfg(..)] mod name;` in a parent file gate every item of the child file
    files = {}
    for dp, _, fs in os.walk(src_root):
        for f in fs:
            if f.endswith(".rs"):
                files[os.path.join(dp, f)] = items_of(open(os.path.join(dp, f)).read())
    mod_gate = {}
    for path, items in files.items():
        d = os.path.dirname(path) if os.path.basename(path) in ("mod.rs", "lib.rs") else os.path.splitext(path)[0]
        for cfgs, text in items:
            m = re.match(r"(pub(\([^)]*\))?\s+)?mod\s+(\w+)\s*;", text.strip())
            if m:
                child = [os.path.join(d, m.group(3) + ".rs"), os.path.join(d, m.group(3), "mod.rs")]
                for c in child:
                    mod_gate[c] = cfgs + mod_gate.get(path, [])
    # second pass so that nested module gates accumulate parents
    for _ in range(3):
        for path, items in files.items():
            d = os.path.dirname(path) if os.path.basename(path) in ("mod.rs", "lib.rs") else os.path.splitext(path)[0]
            for cfgs, text in items:
                m = re.match(r"(pub(\([^)]*\))?\s+)?mod\s+(\w+)\s*;", text.strip())
                if m:
                    for c in (os.path.join(d, m.group(3) + ".rs"), os.path.join(d, m.group(3), "mod.rs")):
                        mod_gate[c] = cfgs + mod_gate.get(path, [])
    # gated definitions (name -> cfg)
    defs = {}
    for path, items in files.items():
        for cfgs, text in items:
            gate = cfgs + mod_gate.get(path, [])
            m = re.match(r"(pub(\([^)]*\))?\s+)?(struct|enum|fn|type|trait|const|static)\s+(\w+)", text.strip())
            if m and gate:
                defs.setdefault(m.group(4), []).append(gate)
    refs = []
    stmt_level = 0
    inner_gates = 0
    for path, items in files.items():
        rel = os.path.relpath(path, root)
        for cfgs, text in items:
            ctx = cfgs + mod_gate.get(path, [])
            body = text
            # gates below item level (inside bodies) or cfg! would make an item's source feature-dependent
            inner = body[body.find("{") + 1:] if "{" in body else ""
            if re.search(r"cfg!\s*\(", body) or re.search(r"#\[cfg\(feature", inner):
                # gates inside fn bodies (statement level) and gates on items nested in impl / trait bodies are counted apart:
                # a gated associated item of a trait impl silently falls back to the trait's default when the feature is off,
                # so the *behaviour* of an included impl would depend on the feature selection
                in_fn = 0
                for fm in re.finditer(r"fn\s+\w+[^{;]*\{", inner):
                    k, depth = fm.end(), 1
                    while k < len(inner) and depth:
                        depth += inner[k] == "{"
                        depth -= inner[k] == "}"
                        k += 1
                    n_here = len(re.findall(r"#\[cfg\(feature|cfg!\s*\(", inner[fm.end():k]))
                    if n_here:
                        stmt_level += 1
                        in_fn += n_here
                head = body[:body.find("{")] if "{" in body else body
                is_trait_body = re.match(r"\s*(pub(\([^)]*\))?\s+)?(unsafe\s+)?trait\b", head) or (re.match(r"\s*(unsafe\s+)?impl\b", head) and re.search(r"\bfor\b", head))
                if is_trait_body:
                    inner_gates += max(0, len(re.findall(r"#\[cfg\(feature|cfg!\s*\(", inner)) - in_fn)
            for d in optional:
                if re.search(r"\b%s::" % d.replace("-", "_"), body):
                    refs.append({"where": rel, "ctx": ctx, "target": "crate:" + d,
                                 "needs": ("any", [("feat", f) for f in enables[d]])})
            for name, gates in defs.items():
                # explicit paths / imports only: `super::Name`, `crate::..::Name`, `use super::{.., Name, ..}`
                if re.search(r"(super|crate|self)::(\w+::)*%s\b" % name, body) or \
                   re.search(r"use\s+(super|crate)::[^;]*\{[^}]*\b%s\b[^}]*\}" % name, body):
                    mdef = re.match(r"(pub(\([^)]*\))?\s+)?(struct|enum|fn|type|trait|const|static)\s+(\w+)", text.strip())
                    if mdef and mdef.group(4) == name:
                        continue
                    refs.append({"where": rel, "ctx": ctx, "target": "item:" + name,
                                 "needs": ("any", [("all", g) for g in gates])})
    return {"features": feats, "optional": optional, "enables": enables, "refs": refs, "stmt_level_gates": stmt_level, "inner_gates": inner_gates}


def closure(feats, S):
    S = set(S)
    changed = True
    while changed:
        changed = False
        for f in list(S):
            for e in feats.get(f, []):
                if e in feats and e not in S:
                    S.add(e); changed = True
    return S


def lean_cfg(c, idx):
    k = c[0]
    if k == "feat":
        return "(.feat %d)" % idx[c[1]] if c[1] in idx else ".ff"
    if k in ("all", "any"):
        return "(.%s [%s])" % (k, ", ".join(lean_cfg(x, idx) for x in c[1]))
    if k == "not":
        return "(.not %s)" % lean_cfg(c[1][0], idx)
    return ".tt"


def emit(repo="/repo"):
    out = ["import PasetoModel.Basic",
           "/-! GENERATED on every run by tools/featscan.py from the Cargo.toml feature tables and an item-level scan of the",
           "    `#[cfg(feature = ..)]` gates of /repo's working tree. Do not edit. -/",
           "namespace PM.Extracted.Feat",
           "inductive Cfg | feat (f : Nat) | all (l : List Cfg) | any (l : List Cfg) | not (c : Cfg) | tt | ff",
           "structure Ref where", "  ctx : Cfg", "  needs : Cfg",
           "structure CrateFacts where", "  nFeatures : Nat", "  edges : List (Nat × Nat)", "  refs : List Ref", "  stmtLevelGates : Nat", "  innerGates : Nat"]
    info = {}
    for c in CRATES:
        sc = scan_crate(os.path.join(repo, c))
        names = [f for f in sc["features"] if f != "default"]
        idx = {f: i for i, f in enumerate(names)}
        edges = [(idx[f], idx[e]) for f in names for e in sc["features"][f] if e in idx]
        refs = []
        for r in sc["refs"]:
            ctx = ("all", r["ctx"])
            e = "⟨%s, %s⟩" % (lean_cfg(ctx, idx), lean_cfg(r["needs"], idx))
            if e not in refs:
                refs.append(e)
        ident = c.replace("-", "_")
        out.append("def %s_refs : List Ref := [" % ident + ",\n    ".join(refs) + "]")
        out.append("def %s : CrateFacts := { nFeatures := %d, edges := [%s], stmtLevelGates := %d, innerGates := %d, refs := %s_refs }" % (
            ident, len(names), ", ".join("(%d, %d)" % e for e in edges), sc["stmt_level_gates"], sc["inner_gates"], ident))
        out.append("/-- feature names of %s, by index: %s -/" % (c, ", ".join("%d=%s" % (i, f) for f, i in idx.items())))
        out.append("def %s_names : List String := [%s]" % (ident, ", ".join('"%s"' % f for f in names)))
        info[c] = {"names": names, "features": sc["features"], "refs": len(refs), "stmt": sc["stmt_level_gates"]}
    out.append("end PM.Extracted.Feat")
    return "\n".join(out) + "\n", info


def cargo_metadata_features(repo="/repo"):
    p = subprocess.run(["cargo", "metadata", "--offline", "--no-deps", "--format-version", "1"], cwd=repo,
                       stdout=subprocess.PIPE, stderr=subprocess.PIPE, env=dict(os.environ, CARGO_NET_OFFLINE="true"))
    if p.returncode != 0:
        return None
    md = json.loads(p.stdout)
    return {pk["name"]: pk["features"] for pk in md["packages"]}


if __name__ == "__main__":
    text, info = emit()
    sys.stdout.write(text)
