//! Reduced-build smoke binary (C19): one RustCrypto back end, built with an arbitrary subset of its cargo
//! features.  It reads operation lines on stdin and prints one result per line.  Whether an operation is
//! *available* in this build is decided by the type system (autoref specialisation on the trait bound the
//! operation needs), not by cfg gates of this crate: an operation whose bound does not hold prints `n/a`.
//! The check builds this binary once with all features (reference) and once per reduced feature set and
//! requires that every line which is not `n/a` in the reduced build equals the reference line.
#![allow(clippy::type_complexity, dead_code)]
use paseto_core::PasetoError;
use paseto_core::encodings::{Payload, WriteBytes};
use paseto_core::key::{HasKey, Key, KeyType, SealingKey};
use paseto_core::paserk::{
    IdVersion, KeyId, KeyText, PasswordWrappedKey, PieWrapVersion, PieWrappedKey, PkeSealingVersion, PkeUnsealingVersion, PwWrapVersion, SealedKey,
};
use paseto_core::tokens::{SealedToken, UnsealedToken};
use paseto_core::validation::NoValidation;
use paseto_core::version::{Local, PkePublic, PkeSecret, Public, Purpose, SealingVersion, Secret, UnsealingVersion, Version};
use std::error::Error;
use std::io::{BufRead, Write};
use std::marker::PhantomData;
use std::str::FromStr;

#[cfg(feature = "v1")]
type Ver = paseto_v1::core::V1;
#[cfg(feature = "v2")]
type Ver = paseto_v2::core::V2;
#[cfg(feature = "v3")]
type Ver = paseto_v3::core::V3;
#[cfg(feature = "v4")]
type Ver = paseto_v4::core::V4;

pub struct Raw(pub Vec<u8>);
impl Payload for Raw {
    const SUFFIX: &'static str = "";
    fn encode(self, mut w: impl WriteBytes) -> Result<(), Box<dyn Error + Send + Sync>> {
        w.write(&self.0);
        Ok(())
    }
    fn decode(p: &[u8]) -> Result<Self, Box<dyn Error + Send + Sync>> {
        Ok(Raw(p.to_vec()))
    }
}

fn hex(b: &[u8]) -> String {
    if b.is_empty() {
        return "-".into();
    }
    b.iter().map(|x| format!("{x:02x}")).collect()
}
fn unhex(s: &str) -> Result<Vec<u8>, String> {
    if s == "-" {
        return Ok(vec![]);
    }
    if s.len() % 2 != 0 {
        return Err("bad-op".into());
    }
    (0..s.len() / 2).map(|i| u8::from_str_radix(&s[2 * i..2 * i + 2], 16).map_err(|_| "bad-op".to_string())).collect()
}
fn utf8(b: Vec<u8>) -> Result<String, String> {
    String::from_utf8(b).map_err(|_| "bad-op".to_string())
}
fn en(e: PasetoError) -> String {
    use paseto_core::PasetoError::*;
    match e {
        Base64DecodeError => "err base64",
        InvalidKey => "err invalidKey",
        InvalidToken => "err invalidToken",
        CryptoError => "err crypto",
        ClaimsError => "err claims",
        PayloadError(_) => "err payload",
        _ => "err other",
    }
    .to_string()
}
fn res(r: Result<String, String>) -> String {
    match r {
        Ok(s) => format!("ok {s}"),
        Err(e) => e,
    }
}
fn arg<'a>(t: &'a [&'a str], i: usize) -> Result<&'a str, String> {
    t.get(i).copied().ok_or_else(|| "bad-op".to_string())
}

pub struct W<V, K>(PhantomData<(V, K)>);

/// `op!(module [where-clauses] |t| body)`: `module::Yes` is implemented for `W<V, K>` exactly when the bounds
/// hold; `module::No` (prints `n/a`) for `&W<V, K>` always; method resolution prefers `Yes`.
macro_rules! op {
    ($m:ident [$($w:tt)*] |$t:ident| $body:block) => {
        mod $m {
            #[allow(unused_imports)]
            use super::*;
            pub trait Yes { fn run(&self, t: &[&str]) -> String; }
            impl<V, K> Yes for W<V, K> where $($w)* {
                fn run(&self, $t: &[&str]) -> String {
                    fn inner<V, K>($t: &[&str]) -> Result<String, String> where $($w)* $body
                    res(inner::<V, K>($t))
                }
            }
            pub trait No { fn run(&self, _t: &[&str]) -> String { "n/a".to_string() } }
            impl<V, K> No for &W<V, K> {}
        }
    };
}
macro_rules! call {
    ($m:ident, $K:ty, $t:expr) => {{
        #[allow(unused_imports)]
        use $m::{No as _, Yes as _};
        (&W::<Ver, $K>(PhantomData)).run($t)
    }};
}
macro_rules! call_kind {
    ($m:ident, $kind:expr, $t:expr) => {
        match $kind {
            "local" => call!($m, Local, $t),
            "public" => call!($m, Public, $t),
            "secret" => call!($m, Secret, $t),
            "pkepublic" => call!($m, PkePublic, $t),
            "pkesecret" => call!($m, PkeSecret, $t),
            _ => "bad-op".to_string(),
        }
    };
}
macro_rules! call_skind {
    ($m:ident, $kind:expr, $t:expr) => {
        match $kind {
            "local" => call!($m, Local, $t),
            "secret" => call!($m, Secret, $t),
            _ => "bad-op".to_string(),
        }
    };
}

fn key_of<V: HasKey<K>, K: KeyType>(raw: &[u8]) -> Result<Key<V, K>, String> {
    KeyText::<V, K>::from_raw_bytes(raw).try_into().map_err(en)
}

// token text: parse and show (needs nothing but the version constants)
op!(tokrt [V: Version, K: Purpose] |t| {
    let s = utf8(unhex(arg(t, 3)?)?)?;
    let tok = SealedToken::<V, K, Raw, Vec<u8>>::from_str(&s).map_err(en)?;
    Ok(format!("{} {}", hex(tok.to_string().as_bytes()), hex(tok.unverified_footer())))
});
// key text: raw bytes -> PASERK text -> raw bytes
op!(ktext [V: Version, K: KeyType] |t| {
    let raw = unhex(arg(t, 3)?)?;
    let text = KeyText::<V, K>::from_raw_bytes(&raw).to_string();
    let back = KeyText::<V, K>::from_str(&text).map_err(en)?;
    Ok(format!("{} {}", hex(text.as_bytes()), hex(back.as_raw_bytes())))
});
op!(kparse [V: Version, K: KeyType] |t| {
    let s = utf8(unhex(arg(t, 3)?)?)?;
    let k = KeyText::<V, K>::from_str(&s).map_err(en)?;
    Ok(format!("{} {}", hex(k.as_raw_bytes()), hex(k.to_string().as_bytes())))
});
// key decode (validation) and canonical re-encoding
op!(kdec [V: HasKey<K>, K: KeyType] |t| {
    let k = key_of::<V, K>(&unhex(arg(t, 3)?)?)?;
    Ok(hex(k.expose_key().as_raw_bytes()))
});
op!(kpub [V: SealingVersion<Public>] |t| {
    let k = key_of::<V, Secret>(&unhex(arg(t, 2)?)?)?;
    Ok(hex(k.public_key().expose_key().as_raw_bytes()))
});
op!(id [V: IdVersion + HasKey<K>, K: KeyType] |t| {
    let k = key_of::<V, K>(&unhex(arg(t, 3)?)?)?;
    Ok(hex(k.id().to_string().as_bytes()))
});
op!(idparse [V: IdVersion, K: KeyType] |t| {
    let s = utf8(unhex(arg(t, 3)?)?)?;
    let k = KeyId::<V, K>::from_str(&s).map_err(en)?;
    Ok(format!("{} {}", hex(k.as_bytes()), hex(k.to_string().as_bytes())))
});
op!(lopen [V: UnsealingVersion<Local>] |t| {
    let k = key_of::<V, Local>(&unhex(arg(t, 2)?)?)?;
    let s = utf8(unhex(arg(t, 3)?)?)?;
    let a = unhex(arg(t, 4)?)?;
    let tok = SealedToken::<V, Local, Raw, Vec<u8>>::from_str(&s).map_err(en)?;
    let u = tok.unseal(&k, &a, &NoValidation::dangerous_no_validation()).map_err(en)?;
    Ok(format!("{} {}", hex(&u.claims.0), hex(&u.footer)))
});
op!(popen [V: UnsealingVersion<Public>] |t| {
    let k = key_of::<V, Public>(&unhex(arg(t, 2)?)?)?;
    let s = utf8(unhex(arg(t, 3)?)?)?;
    let a = unhex(arg(t, 4)?)?;
    let tok = SealedToken::<V, Public, Raw, Vec<u8>>::from_str(&s).map_err(en)?;
    let u = tok.unseal(&k, &a, &NoValidation::dangerous_no_validation()).map_err(en)?;
    Ok(format!("{} {}", hex(&u.claims.0), hex(&u.footer)))
});
op!(lseal [V: SealingVersion<Local>] |t| {
    let k = key_of::<V, Local>(&unhex(arg(t, 2)?)?)?;
    let (n, m, f, a) = (unhex(arg(t, 3)?)?, unhex(arg(t, 4)?)?, unhex(arg(t, 5)?)?, unhex(arg(t, 6)?)?);
    let tok = UnsealedToken::<V, Local, Raw>::new(Raw(m)).with_footer(f).dangerous_seal_with_nonce(&k, &a, n).map_err(en)?;
    Ok(hex(tok.to_string().as_bytes()))
});
// signing: the token itself is printed only where signatures are deterministic (Ed25519, RFC 6979); v1 (RSA-PSS) prints its length
op!(psign [V: SealingVersion<Public>] |t| {
    let k = key_of::<V, Secret>(&unhex(arg(t, 2)?)?)?;
    let (m, f, a) = (unhex(arg(t, 3)?)?, unhex(arg(t, 4)?)?, unhex(arg(t, 5)?)?);
    let tok = UnsealedToken::<V, Public, Raw>::new(Raw(m)).with_footer(f).seal(&k, &a).map_err(en)?;
    let s = tok.to_string();
    if V::HEADER == "v1" { Ok(format!("len={}", s.len())) } else { Ok(hex(s.as_bytes())) }
});
op!(pieopen [V: PieWrapVersion + HasKey<K>, K: SealingKey] |t| {
    let wk = key_of::<V, Local>(&unhex(arg(t, 3)?)?)?;
    let s = utf8(unhex(arg(t, 4)?)?)?;
    let w = PieWrappedKey::<V, K>::from_str(&s).map_err(en)?;
    let k = w.unwrap(&wk).map_err(en)?;
    Ok(hex(k.expose_key().as_raw_bytes()))
});
op!(piert [V: PieWrapVersion + HasKey<K>, K: SealingKey] |t| {
    let wk = key_of::<V, Local>(&unhex(arg(t, 3)?)?)?;
    let raw = unhex(arg(t, 4)?)?;
    let s = key_of::<V, K>(&raw)?.wrap_pie(&wk).map_err(en)?.to_string();
    let k = PieWrappedKey::<V, K>::from_str(&s).map_err(en)?.unwrap(&wk).map_err(en)?;
    Ok(format!("rt={} hdr={}", (k.expose_key().as_raw_bytes() == key_of::<V, K>(&raw)?.expose_key().as_raw_bytes()) as u8, hex(s.rsplit_once('.').map(|x| x.0).unwrap_or("").as_bytes())))
});
op!(pwopen [V: PwWrapVersion + HasKey<K>, K: SealingKey] |t| {
    let pass = unhex(arg(t, 3)?)?;
    let s = utf8(unhex(arg(t, 4)?)?)?;
    let w = PasswordWrappedKey::<V, K>::from_str(&s).map_err(en)?;
    let k = w.unwrap(&pass).map_err(en)?;
    Ok(hex(k.expose_key().as_raw_bytes()))
});
op!(pwrt [V: PwWrapVersion + HasKey<K>, K: SealingKey] |t| {
    let pass = unhex(arg(t, 3)?)?;
    let donor = utf8(unhex(arg(t, 4)?)?)?;
    let raw = unhex(arg(t, 5)?)?;
    let params = PasswordWrappedKey::<V, K>::from_str(&donor).map_err(en)?.params().map_err(en)?;
    let s = key_of::<V, K>(&raw)?.password_wrap_with_params(&pass, &params).map_err(en)?.to_string();
    let k = PasswordWrappedKey::<V, K>::from_str(&s).map_err(en)?.unwrap(&pass).map_err(en)?;
    Ok(format!("rt={} hdr={}", (k.expose_key().as_raw_bytes() == key_of::<V, K>(&raw)?.expose_key().as_raw_bytes()) as u8, hex(s.rsplit_once('.').map(|x| x.0).unwrap_or("").as_bytes())))
});
op!(sealopen [V: PkeUnsealingVersion] |t| {
    let sk = key_of::<V, PkeSecret>(&unhex(arg(t, 2)?)?)?;
    let s = utf8(unhex(arg(t, 3)?)?)?;
    let k = SealedKey::<V>::from_str(&s).map_err(en)?.unseal(&sk).map_err(en)?;
    Ok(hex(k.expose_key().as_raw_bytes()))
});
op!(sealrt [V: PkeSealingVersion + PkeUnsealingVersion] |t| {
    let pk = key_of::<V, PkePublic>(&unhex(arg(t, 2)?)?)?;
    let sk = key_of::<V, PkeSecret>(&unhex(arg(t, 3)?)?)?;
    let raw = unhex(arg(t, 4)?)?;
    let s = key_of::<V, Local>(&raw)?.seal(&pk).map_err(en)?.to_string();
    let k = SealedKey::<V>::from_str(&s).map_err(en)?.unseal(&sk).map_err(en)?;
    Ok(format!("rt={} hdr={}", (k.expose_key().as_raw_bytes() == &raw[..]) as u8, hex(s.rsplit_once('.').map(|x| x.0).unwrap_or("").as_bytes())))
});
// encrypt / sign with the library's own randomness, then (if this build can) open again
op!(lrt [V: SealingVersion<Local> + UnsealingVersion<Local>] |t| {
    let k = key_of::<V, Local>(&unhex(arg(t, 2)?)?)?;
    let (m, f, a) = (unhex(arg(t, 3)?)?, unhex(arg(t, 4)?)?, unhex(arg(t, 5)?)?);
    let s = UnsealedToken::<V, Local, Raw>::new(Raw(m.clone())).with_footer(f).seal(&k, &a).map_err(en)?.to_string();
    let u = SealedToken::<V, Local, Raw, Vec<u8>>::from_str(&s).map_err(en)?.unseal(&k, &a, &NoValidation::dangerous_no_validation()).map_err(en)?;
    Ok(format!("rt={}", (u.claims.0 == m) as u8))
});
op!(prt [V: SealingVersion<Public> + UnsealingVersion<Public>] |t| {
    let k = key_of::<V, Secret>(&unhex(arg(t, 2)?)?)?;
    let (m, f, a) = (unhex(arg(t, 3)?)?, unhex(arg(t, 4)?)?, unhex(arg(t, 5)?)?);
    let s = UnsealedToken::<V, Public, Raw>::new(Raw(m.clone())).with_footer(f).seal(&k, &a).map_err(en)?.to_string();
    let u = SealedToken::<V, Public, Raw, Vec<u8>>::from_str(&s).map_err(en)?.unseal(&k.public_key(), &a, &NoValidation::dangerous_no_validation()).map_err(en)?;
    Ok(format!("rt={}", (u.claims.0 == m) as u8))
});

fn exec(line: &str) -> String {
    let t: Vec<&str> = line.split(' ').collect();
    let t = &t[..];
    let kind = t.get(2).copied().unwrap_or("");
    match t[0] {
        "consts" => format!("ok {} {}", hex(<Ver as Version>::HEADER.as_bytes()), hex(<Ver as Version>::PASERK_HEADER.as_bytes())),
        "tokrt" => match kind {
            "local" => call!(tokrt, Local, t),
            "public" => call!(tokrt, Public, t),
            _ => "bad-op".into(),
        },
        "ktext" => call_kind!(ktext, kind, t),
        "kparse" => call_kind!(kparse, kind, t),
        "kdec" => call_kind!(kdec, kind, t),
        "kpub" => call!(kpub, (), t),
        "id" => call_kind!(id, kind, t),
        "idparse" => call_kind!(idparse, kind, t),
        "lopen" => call!(lopen, (), t),
        "popen" => call!(popen, (), t),
        "lseal" => call!(lseal, (), t),
        "psign" => call!(psign, (), t),
        "lrt" => call!(lrt, (), t),
        "prt" => call!(prt, (), t),
        "pieopen" => call_skind!(pieopen, kind, t),
        "piert" => call_skind!(piert, kind, t),
        "pwopen" => call_skind!(pwopen, kind, t),
        "pwrt" => call_skind!(pwrt, kind, t),
        "sealopen" => call!(sealopen, (), t),
        "sealrt" => call!(sealrt, (), t),
        _ => "bad-op".into(),
    }
}

fn main() {
    std::panic::set_hook(Box::new(|_| {}));
    let out = std::io::stdout();
    let mut out = std::io::BufWriter::new(out.lock());
    for line in std::io::stdin().lock().lines() {
        let line = line.unwrap();
        let l = line.trim_end();
        if l.is_empty() || l.starts_with('#') {
            writeln!(out, "{l}").unwrap();
            continue;
        }
        let r = std::panic::catch_unwind(|| exec(l)).unwrap_or_else(|_| "panic".to_string());
        writeln!(out, "{r}").unwrap();
    }
}
